(* Property C09 -- Ionisation balance solves the steady-state equations, conserves particles/charge.
   This file contains nothing but the property theorems, each closed by [exact] of a lemma from
   Proofs/, with Print Assumptions beneath.  All of them hold for every Z >= 1 (the property asks
   for 1..18), all positive ionisation/recombination tables, every non-negative CX table, every
   n_e > 0 and donor density >= 0 ([rates_ok], Model/C09_Balance.v).
   [fractional_point] is the closed form  f_z = r_z / sum r,  r_0 = 1, r_(z+1) = r_z S_z / R_(z+1),
   R_z = alpha_z + (n_D/n_e) C_z. *)
Require Import Cherab.Common.Qx.
From Coq Require Import Lqa.
Require Import Cherab.Model.C09_Balance Cherab.Model.C09_Check.
Require Import Cherab.Proofs.C09_Balance Cherab.Proofs.C09_Check.
Open Scope Q_scope.

Theorem C09_fractions_in_unit_interval :
  forall Z ion rec cx nd ne, rates_ok Z ion rec cx nd ne ->
  forall z, (z <= Z)%nat ->
  0 <= fractional_point Z ion rec cx nd ne z /\ fractional_point Z ion rec cx nd ne z <= 1.
Proof. exact thm_unit_interval. Qed.
Print Assumptions C09_fractions_in_unit_interval.

Theorem C09_fractions_sum_to_one :
  forall Z ion rec cx nd ne, rates_ok Z ion rec cx nd ne ->
  sumn (S Z) (fractional_point Z ion rec cx nd ne) == 1.
Proof. exact thm_sum_one. Qed.
Print Assumptions C09_fractions_sum_to_one.

(* n_z S_z = n_(z+1) (alpha_(z+1) + (n_D/n_e) C_(z+1)) between every pair of neighbours;
   [dcx cx nd ne z] is (n_D/n_e) C_z with a donor and 0 without *)
Theorem C09_pairwise_balance :
  forall Z ion rec cx nd ne, rates_ok Z ion rec cx nd ne ->
  forall z, (z < Z)%nat ->
  fractional_point Z ion rec cx nd ne z * ion z ==
  fractional_point Z ion rec cx nd ne (S z) * (rec (S z) + dcx cx nd ne (S z)).
Proof. exact thm_balance. Qed.
Print Assumptions C09_pairwise_balance.

(* the matrix and right-hand side the code hands to lsq_linear are solved exactly by n_e * fractions *)
Theorem C09_closed_form_solves_code_matrix :
  forall Z ion rec cx nd ne, rates_ok Z ion rec cx nd ne ->
  Forall2 Qeq
    (matvec (balance_matrix Z ion rec cx nd ne)
            (map (fun z => ne * fractional_point Z ion rec cx nd ne z) (seq 0 (S Z))))
    (balance_rhs Z ne).
Proof. exact thm_solves_matrix. Qed.
Print Assumptions C09_closed_form_solves_code_matrix.

(* the exact solution of the code's equations is unique ... *)
Theorem C09_exact_solution_unique :
  forall Z ion rec cx nd ne, rates_ok Z ion rec cx nd ne ->
  forall (x : nat -> Q) s,
  (forall i, (i <= Z)%nat -> rowdot Z ion rec cx nd ne i x == 0) -> sumn (S Z) x == s ->
  forall z, (z <= Z)%nat -> x z == s * fractional_point Z ion rec cx nd ne z.
Proof. exact thm_exact_solution_unique. Qed.
Print Assumptions C09_exact_solution_unique.

(* ... and so is the minimiser of the bounded least-squares problem of line 240: whatever vector
   minimises |A x - b|^2 over the box 0 <= x <= n_e is n_e times the closed form (in exact arithmetic;
   what scipy's lsq_linear returns in floating point is compared with it by the correspondence) *)
Theorem C09_lsq_minimiser_is_closed_form :
  forall Z ion rec cx nd ne, rates_ok Z ion rec cx nd ne ->
  forall x : nat -> Q,
  (forall y, in_box Z ne y -> lsq_cost Z ion rec cx nd ne x <= lsq_cost Z ion rec cx nd ne y) ->
  forall z, (z <= Z)%nat -> x z == ne * fractional_point Z ion rec cx nd ne z.
Proof. exact thm_lsq. Qed.
Print Assumptions C09_lsq_minimiser_is_closed_form.

Theorem C09_density_scaling :
  forall Z ion rec cx nd ne n_el, rates_ok Z ion rec cx nd ne ->
  (forall z, from_density_point Z ion rec cx nd ne n_el z == n_el * fractional_point Z ion rec cx nd ne z)
  /\ sumn (S Z) (from_density_point Z ion rec cx nd ne n_el) == n_el.
Proof. exact thm_density. Qed.
Print Assumptions C09_density_scaling.

(* neutrality matching: non-negative densities; their charge plus the charge of the given species is
   n_e whenever the given species do not already exceed n_e (otherwise the code clamps to zero) *)
Theorem C09_neutrality :
  forall Z ion rec cx nd ne sp, rates_ok Z ion rec cx nd ne ->
  let dens := match_neutrality_point Z ion rec cx nd ne sp in
  (forall z, (z <= Z)%nat -> 0 <= dens z)
  /\ (species_charge sp <= ne -> sumn (S Z) (fun z => qnat z * dens z) + species_charge sp == ne)
  /\ (ne < species_charge sp -> forall z, dens z == 0).
Proof. exact thm_neutrality. Qed.
Print Assumptions C09_neutrality.

(* a CX donor of positive density with positive rates strictly raises the neutral fraction: a solver
   that ignores the donor cannot return the right answer (the defect fixed by ff3e771) *)
Theorem C09_donor_matters :
  forall Z ion rec c nd ne,
  rates_ok Z ion rec None nd ne -> 0 < nd -> (forall z, (1 <= z <= Z)%nat -> 0 < c z) ->
  fractional_point Z ion rec None nd ne O < fractional_point Z ion rec (Some c) nd ne O.
Proof. exact thm_donor_matters. Qed.
Print Assumptions C09_donor_matters.

Theorem C09_zero_donor_is_no_donor :
  forall Z ion rec c ne z,
  fractional_point Z ion rec (Some c) 0 ne z == fractional_point Z ion rec None 0 ne z.
Proof. exact zero_donor_is_no_donor. Qed.
Print Assumptions C09_zero_donor_is_no_donor.

(* scalars, arrays, Function1D and Function2D with free variables denote arrays of point values;
   profiles depend on the inputs only through those values, and every point of a profile is the
   point calculation.  Interpolators and equilibrium mapping (raysect, EFITEquilibrium) are outside
   the model: they are compared at knots and between knots by the correspondence only. *)
Theorem C09_entry_points_agree_partial :
  forall Z ion rec cx,
  (forall ne ne' te te' nd nd',
      points ne = points ne' -> points te = points te' -> donor_points nd ne = donor_points nd' ne' ->
      fractional_profile Z ion rec cx ne te nd = fractional_profile Z ion rec cx ne' te' nd')
  /\ (forall n_el n_el' ne ne' te te' nd nd',
      points n_el = points n_el' ->
      points ne = points ne' -> points te = points te' -> donor_points nd ne = donor_points nd' ne' ->
      density_profile Z ion rec cx n_el ne te nd = density_profile Z ion rec cx n_el' ne' te' nd')
  /\ (forall ne te nd k,
      (k < length (points ne))%nat -> length (points ne) = length (points te) ->
      length (points ne) = length (donor_points nd ne) ->
      nth k (fractional_profile Z ion rec cx ne te nd) [] =
      let n := nth k (points ne) 0 in let t := nth k (points te) 0 in let d := nth k (donor_points nd ne) 0 in
      map (fractional_point Z (at_point ion n t) (at_point rec n t) (option_map (fun c => at_point c n t) cx) d n)
          (seq 0 (S Z))).
Proof. exact thm_entry_points. Qed.
Print Assumptions C09_entry_points_agree_partial.

(* the evaluator the correspondence runs is the model *)
Theorem C09_checker_evaluates_model :
  forall Z ion R, Forall2 Qeq (cf_fast Z ion R) (map (cf Z ion R) (seq 0 (S Z))).
Proof. exact cf_fast_ok. Qed.
Print Assumptions C09_checker_evaluates_model.

(* non-vacuity: carbon-like Z = 6 with all rates 1, n_D = n_e meets the hypotheses *)
Example C09_nonvacuous :
  rates_ok 6 (fun _ => 1) (fun _ => 1) (Some (fun _ => 1)) 1 1
  /\ fractional_point 6 (fun _ => 1) (fun _ => 1) (Some (fun _ => 1)) 1 1 0 == 64 # 127.
Proof. split; [repeat split; intros; try lia; lra | vm_compute; reflexivity]. Qed.
