(* Property C20 -- Grid derivative and ADMT operators discretise the operators they claim to.
   This file contains nothing but the property theorems, each closed by [exact] of a lemma from
   Proofs/, with Print Assumptions beneath. *)
Require Import Cherab.Common.Qx.
Require Import Cherab.Model.C20_Stencil Cherab.Model.C20_Admt.
Require Import Cherab.Model.C20_Spacing.
Require Import Cherab.Proofs.C20_Stencil Cherab.Proofs.C20_Admt Cherab.Proofs.C20_Consistency Cherab.Proofs.C20_Spacing.
Require Import Cherab.Proofs.C20_Source.
Open Scope Q_scope.

(* an operator row acts on a field through its nine coefficients only, and the rows the code returns are the raw rows
   divided by the tabled scaling: this is what lets the source tie (coq/Gen/C20/Source.v, regenerated on every run from
   the syntax tree of generate_derivative_operators, proving coefficient equality with the model for every grid size
   and cell) carry every theorem below over to the program the source contains *)
Theorem C20_rows_act_through_their_coefficients :
  (forall s s' f ix iy, coeffs s = coeffs s' -> apply s f ix iy = apply s' f ix iy) /\
  (forall o nx ny ix iy dx dy, op_row o nx ny ix iy dx dy = scale (model_scale o dx dy) (raw_row o nx ny ix iy)).
Proof. split; [exact apply_of_coeffs | exact op_row_is_scaled_raw]. Qed.
Print Assumptions C20_rows_act_through_their_coefficients.

(* every operator maps a constant field to zero, in every cell of every grid >= 2x2 *)
Theorem C20_ops_annihilate_constants :
  forall nx ny ix iy, (2 <= nx)%Z -> (2 <= ny)%Z -> (0 <= ix < nx)%Z -> (0 <= iy < ny)%Z ->
  forall dx dy, ~ dx == 0 -> ~ dy == 0 ->
  forall o c, apply (op_row o nx ny ix iy dx dy) (fun _ _ => c) ix iy == 0.
Proof. exact const_annihilated. Qed.
Print Assumptions C20_ops_annihilate_constants.

Theorem C20_first_derivatives_exact_on_linear :
  forall nx ny ix iy, (2 <= nx)%Z -> (2 <= ny)%Z -> (0 <= ix < nx)%Z -> (0 <= iy < ny)%Z ->
  forall dx dy, ~ dx == 0 -> ~ dy == 0 -> forall x0 y0 a b c,
  apply (op_row ODx nx ny ix iy dx dy) (lin dx dy x0 y0 a b c) ix iy == b /\
  apply (op_row ODy nx ny ix iy dx dy) (lin dx dy x0 y0 a b c) ix iy == c.
Proof. intros; split; [apply Dx_exact_linear | apply Dy_exact_linear]; assumption. Qed.
Print Assumptions C20_first_derivatives_exact_on_linear.

Theorem C20_mixed_exact_on_bilinear :
  forall nx ny ix iy, (2 <= nx)%Z -> (2 <= ny)%Z -> (0 <= ix < nx)%Z -> (0 <= iy < ny)%Z ->
  forall dx dy, ~ dx == 0 -> ~ dy == 0 -> forall x0 y0 a b c d,
  apply (op_row ODxy nx ny ix iy dx dy) (bilin dx dy x0 y0 a b c d) ix iy == d.
Proof. exact Dxy_exact_bilinear. Qed.
Print Assumptions C20_mixed_exact_on_bilinear.

Theorem C20_second_exact_on_quadratic_interior :
  forall nx ny ix iy, (2 <= nx)%Z -> (2 <= ny)%Z -> (0 <= ix < nx)%Z -> (0 <= iy < ny)%Z ->
  forall dx dy, ~ dx == 0 -> ~ dy == 0 -> forall x0 y0 a b c d e g,
  ((0 < ix < nx - 1)%Z -> apply (op_row ODxx nx ny ix iy dx dy) (quad dx dy x0 y0 a b c d e g) ix iy == 2 * d) /\
  ((0 < iy < ny - 1)%Z -> apply (op_row ODyy nx ny ix iy dx dy) (quad dx dy x0 y0 a b c d e g) ix iy == 2 * g).
Proof. intros; split; [apply Dxx_exact_quadratic | apply Dyy_exact_quadratic]; assumption. Qed.
Print Assumptions C20_second_exact_on_quadratic_interior.

(* what the property does NOT promise, stated positively: in a boundary column (row) the code's Dxx (Dyy) row is the one-sided
   first difference divided by the spacing once more, so on a linear field it returns slope/spacing, for every grid >= 2x2 *)
Theorem C20_second_derivative_boundary_rows_are_one_sided :
  forall nx ny ix iy, (2 <= nx)%Z -> (2 <= ny)%Z -> (0 <= ix < nx)%Z -> (0 <= iy < ny)%Z ->
  forall dx dy, ~ dx == 0 -> ~ dy == 0 -> forall x0 y0 a b c,
  ((ix = 0 \/ ix = nx - 1)%Z -> apply (op_row ODxx nx ny ix iy dx dy) (lin dx dy x0 y0 a b c) ix iy == b / dx) /\
  ((iy = 0 \/ iy = ny - 1)%Z -> apply (op_row ODyy nx ny ix iy dx dy) (lin dx dy x0 y0 a b c) ix iy == c / dy).
Proof. intros; split; [apply Dxx_boundary_on_linear | apply Dyy_boundary_on_linear]; assumption. Qed.
Print Assumptions C20_second_derivative_boundary_rows_are_one_sided.

(* interior rows are centred, hence second-order: Dx, Dy and Dxy are exact on every quadratic field away from the boundary
   they differentiate across *)
Theorem C20_first_and_mixed_exact_on_quadratic_interior :
  forall nx ny ix iy, (2 <= nx)%Z -> (2 <= ny)%Z -> (0 <= ix < nx)%Z -> (0 <= iy < ny)%Z ->
  forall dx dy, ~ dx == 0 -> ~ dy == 0 -> forall x0 y0 a b c d e g,
  ((0 < ix < nx - 1)%Z -> apply (op_row ODx nx ny ix iy dx dy) (quad dx dy x0 y0 a b c d e g) ix iy
                           == b + 2 * d * xc x0 dx ix + e * yc y0 dy iy) /\
  ((0 < iy < ny - 1)%Z -> apply (op_row ODy nx ny ix iy dx dy) (quad dx dy x0 y0 a b c d e g) ix iy
                           == c + e * xc x0 dx ix + 2 * g * yc y0 dy iy) /\
  ((0 < ix < nx - 1)%Z -> (0 < iy < ny - 1)%Z ->
     apply (op_row ODxy nx ny ix iy dx dy) (quad dx dy x0 y0 a b c d e g) ix iy == e).
Proof.
  intros; split; [|split]; intros;
    [apply Dx_exact_quadratic_interior | apply Dy_exact_quadratic_interior | apply Dxy_exact_quadratic_interior]; assumption.
Qed.
Print Assumptions C20_first_and_mixed_exact_on_quadratic_interior.

Theorem C20_rows_stay_in_grid :
  forall nx ny ix iy, (2 <= nx)%Z -> (2 <= ny)%Z -> (0 <= ix < nx)%Z -> (0 <= iy < ny)%Z ->
  forall dx dy o a b, ~ op_row o nx ny ix iy dx dy a b == 0 -> has nx ny ix iy a b = true.
Proof. exact support_in_grid. Qed.
Print Assumptions C20_rows_stay_in_grid.

(* the ADMT coefficients are those of div (D grad f) in cylindrical geometry, D = D_perp n n^T +
   D_par t t^T with n = grad psi / |grad psi|, for every value of the derivative estimates *)
Theorem C20_admt_is_divergence_form :
  forall j, ~ normalisation j == 0 -> ~ rad j == 0 ->
  c_x j == eval j div_cx /\ c_y j == eval j div_cy
  /\ c_xx j == eval j eDxx /\ c_yy j == eval j eDyy /\ c_xy j == eval j eDxy.
Proof. exact admt_divergence_form. Qed.
Print Assumptions C20_admt_is_divergence_form.

Theorem C20_admt_annihilates_constants :
  forall nx ny ix iy, (2 <= nx)%Z -> (2 <= ny)%Z -> (0 <= ix < nx)%Z -> (0 <= iy < ny)%Z ->
  forall dx dy, ~ dx == 0 -> ~ dy == 0 ->
  forall j s c, apply (admt_row j nx ny ix iy dx dy s) (fun _ _ => c) ix iy == 0.
Proof. exact admt_annihilates_constants. Qed.
Print Assumptions C20_admt_annihilates_constants.

(* anisotropy 1: the operator is (Dxx + Dyy + Dx / R) * sqrt(dx dy) in every cell, whatever psi *)
Theorem C20_admt_isotropic_is_laplacian :
  forall nx ny ix iy, (2 <= nx)%Z -> (2 <= ny)%Z -> (0 <= ix < nx)%Z -> (0 <= iy < ny)%Z ->
  forall dx dy, ~ dx == 0 -> ~ dy == 0 ->
  forall psi r s f, ~ r == 0 -> ~ normalisation (jet_of psi 1 r nx ny ix iy dx dy) == 0 ->
  apply (admt_row (jet_of psi 1 r nx ny ix iy dx dy) nx ny ix iy dx dy s) f ix iy ==
  (apply (op_row ODxx nx ny ix iy dx dy) f ix iy + apply (op_row ODyy nx ny ix iy dx dy) f ix iy
   + (1 / r) * apply (op_row ODx nx ny ix iy dx dy) f ix iy) * s.
Proof. exact isotropic_operator_is_laplacian. Qed.
Print Assumptions C20_admt_isotropic_is_laplacian.

(* second-order consistency: for a QUADRATIC flux map and a QUADRATIC field f the operator row of an interior
   cell applied to f is exactly sqrt(dx dy) * div (D grad f) at the cell centre (the coefficients of the exact
   derivatives of f are those of the divergence form evaluated at the exact jet of psi) *)
Theorem C20_admt_exact_on_quadratics_interior :
  forall nx ny ix iy dx dy x0 y0 a b c d e g aniso r s fa fb fc fd fe fg,
  (2 <= nx)%Z -> (2 <= ny)%Z -> (0 < ix < nx - 1)%Z -> (0 < iy < ny - 1)%Z -> ~ dx == 0 -> ~ dy == 0 ->
  let X := xc x0 dx ix in let Y := yc y0 dy iy in
  let J := exact_jet ix iy dx dy x0 y0 a b c d e g aniso r in
  ~ normalisation J == 0 -> ~ r == 0 ->
  apply (admt_row (jet_of (quad dx dy x0 y0 a b c d e g) aniso r nx ny ix iy dx dy) nx ny ix iy dx dy s)
        (quad dx dy x0 y0 fa fb fc fd fe fg) ix iy ==
  (eval J div_cx * (fb + 2 * fd * X + fe * Y) + eval J div_cy * (fc + fe * X + 2 * fg * Y)
   + eval J eDxx * (2 * fd) + 2 * eval J eDxy * fe + eval J eDyy * (2 * fg)) * s.
Proof. exact admt_exact_on_quadratics_div_form. Qed.
Print Assumptions C20_admt_exact_on_quadratics_interior.

(* the spacing the code infers from the centres of consecutive voxels is the voxel width (height) for every
   1-D numbering in which some two consecutive voxels are neighbours along that axis - in particular for the
   documented column-by-column order of any grid with at least two rows and columns *)
Theorem C20_spacing_inferred_correctly :
  forall x0 dx, 0 < dx -> forall cols, has_unit_step cols = true ->
  exists m, infer_spacing (axis_coords x0 dx cols) = Some m /\ m == dx.
Proof. exact infer_spacing_correct. Qed.
Print Assumptions C20_spacing_inferred_correctly.

(* non-vacuity: a concrete 3x4 grid cell and a jet that meet the hypotheses *)
Example C20_nonvacuous :
  (2 <= 3)%Z /\ (2 <= 4)%Z /\ (0 <= 2 < 3)%Z /\ (0 <= 0 < 4)%Z /\ ~ (1#2) == 0 /\
  ~ normalisation witness_jet == 0 /\ ~ rad witness_jet == 0.
Proof. repeat split; try lia; vm_compute; congruence. Qed.
