(* Property C18 -- Laser profiles integrate to the pulse energy and track their parameters.
   This file contains nothing but the property theorems, each closed by [exact] of a lemma from
   Proofs/, with Print Assumptions beneath.

   Reading guide.  [construct c k a = Some s] : s is the object Class_k(arguments a) attached to a
   Laser node; [run c s0 ops] : the object after the setter calls ops.  The history theorems say
   that the object after ANY history is literally the object the constructor builds from the
   reported parameters; every other theorem is stated for a constructed object and therefore
   holds after any history with the reported parameters in place of the arguments. *)
Require Import Cherab.Common.Qx.
Require Import Cherab.Model.C18_Laser Cherab.Model.C18_Spectrum.
Require Import Cherab.Proofs.C18_Segments Cherab.Proofs.C18_Profile Cherab.Proofs.C18_Density Cherab.Proofs.C18_Spectrum.
Require Import Cherab.Proofs.C18_EndToEnd Cherab.Proofs.C18_Nodes.
Require Import Cherab.Model.C18_Float Cherab.Proofs.C18_Float.
Open Scope Q_scope.

(* ---- segments ---------------------------------------------------------------------------- *)
(* for every radius and length (also length < 2 radius) the generated segments are a non-empty
   contiguous chain of positive-height cylinders from z = 0 to z = length *)
Theorem C18_segments_tile :
  forall r L, 0 < r -> 0 < L -> exists l, segments r L = Some l /\ tiles l L.
Proof. exact segments_tile. Qed.
Print Assumptions C18_segments_tile.

(* the heights sum to the length; every z in [0, L) lies in exactly one segment, every other z in none *)
Theorem C18_segments_cover_exactly_once :
  forall r L z, 0 < r -> 0 < L ->
  exists l, segments r L = Some l /\ Qsum (map snd l) == L /\
    (0 <= z -> z < L -> cover_count z l = 1%nat) /\ (z < 0 \/ L <= z -> cover_count z l = 0%nat).
Proof. exact segments_cover_exactly_once. Qed.
Print Assumptions C18_segments_cover_exactly_once.

(* ---- profiles: parameters and histories ---------------------------------------------------- *)
Theorem C18_profile_constructor_reports_arguments :
  forall c k a s, construct c k a = Some s ->
  kind s = k /\ pol s = a_pol a /\
  (forall f, has_field k f = true -> get f (vals s) = get f (a_vals a)) /\
  efun s = fresh_fun c k (a_vals a) /\ geom s = segments (v_rad (a_vals a)) (v_len (a_vals a)).
Proof. exact constructor_reports_arguments. Qed.
Print Assumptions C18_profile_constructor_reports_arguments.

(* after any sequence of setter calls -- any length, any values, accepted or rejected, also calls
   on attributes the class does not have -- the object (installed energy-density function,
   polarisation, segments held by the Laser node, every attribute) equals the freshly constructed
   object with the reported parameters.  [clean] excludes only values <= 0 handed to the two
   unguarded GaussianBeamAxisymmetric setters (see the last theorem of this file). *)
Theorem C18_profile_history_independent :
  forall c k a s0 ops, construct c k a = Some s0 -> forallb (clean k) ops = true ->
  let s := fst (run c s0 ops) in construct c k (args_of s) = Some s.
Proof. exact profile_history_independent. Qed.
Print Assumptions C18_profile_history_independent.

Theorem C18_uniform_tracks_parameter :
  forall c a s0 ops, construct c KUniform a = Some s0 ->
  let s := fst (run c s0 ops) in efun s = FConst (v_ed (vals s)).
Proof. exact uniform_tracks_parameter. Qed.
Print Assumptions C18_uniform_tracks_parameter.

(* ---- profiles: the energy density is E/(c tau) times a product of normal densities ---------- *)
(* [phi pi expo sqrtf v t] = exp(-t^2 / 2v) / sqrt(2 pi v), the N(0, v) density.  For every pi > 0,
   every exp with exp(a+b) = exp a * exp b and every sqrtf that is the positive root at the points used. *)
Theorem C18_bivariate_is_product_of_normal_densities :
  forall pi s2pi3 expo sqrtf, 0 < pi ->
  (forall a b, expo (a + b) == expo a * expo b) -> (forall a b, a == b -> expo a == expo b) ->
  forall c a s x y z, construct c KBiv a = Some s ->
  let v := a_vals a in
  sqrt_at sqrtf (2 * pi * sq (v_sx v)) -> sqrt_at sqrtf (2 * pi * sq (v_sy v)) ->
  ed_of pi s2pi3 expo (efun s) x y z ==
  v_pe v / (c * v_pl v) * (phi pi expo sqrtf (sq (v_sx v)) x * phi pi expo sqrtf (sq (v_sy v)) y).
Proof. exact bivariate_density. Qed.
Print Assumptions C18_bivariate_is_product_of_normal_densities.

Theorem C18_beam_is_product_of_normal_densities :
  forall pi s2pi3 expo sqrtf,
  (forall a b, expo (a + b) == expo a * expo b) -> (forall a b, a == b -> expo a == expo b) ->
  forall c a s x y z, construct c KBeam a = Some s ->
  let v := a_vals a in
  let var := beam_var pi (v_wl v) (v_wz v) (v_sw v) z in
  sqrt_at sqrtf (2 * pi * var) ->
  ed_of pi s2pi3 expo (efun s) x y z ==
  v_pe v / (c * v_pl v) * (phi pi expo sqrtf var x * phi pi expo sqrtf var y).
Proof. exact beam_density. Qed.
Print Assumptions C18_beam_is_product_of_normal_densities.

Theorem C18_trivariate_is_product_of_normal_densities :
  forall pi s2pi3 expo sqrtf,
  (forall a b, expo (a + b) == expo a * expo b) -> (forall a b, a == b -> expo a == expo b) ->
  s2pi3 * s2pi3 == (2 * pi) * (2 * pi) * (2 * pi) -> 0 < s2pi3 ->
  forall c a s x y z, 0 < c -> construct c KTri a = Some s ->
  let v := a_vals a in
  sqrt_at sqrtf (2 * pi * sq (v_sx v)) -> sqrt_at sqrtf (2 * pi * sq (v_sy v)) -> sqrt_at sqrtf (2 * pi * sq (v_pl v * c)) ->
  ed_of pi s2pi3 expo (efun s) x y z ==
  v_pe v * (phi pi expo sqrtf (sq (v_sx v)) x * phi pi expo sqrtf (sq (v_sy v)) y
            * phi pi expo sqrtf (sq (v_pl v * c)) (z - v_mz v)).
Proof. exact trivariate_density. Qed.
Print Assumptions C18_trivariate_is_product_of_normal_densities.

(* PARTIAL (narrowed in the deepening round: no hypothesis quantifies over all variances any more, no
   translation invariance, no global square root).  J stands for the integral over the real line; assumed:
   J respects pointwise equality and lets a constant factor through, and the two / three normal densities
   that occur in the profile at hand integrate to one ([cross_hyps] / [volume_hyps]: J (phi v) == 1 and
   sqrtf exact at 2 pi v for v = sigma_x^2, sigma_y^2, resp. sigma(z)^2, resp. additionally
   J (t |-> phi sigma_z^2 (t - mean_z)) == 1).  What remains unproved is exactly: the Lebesgue integral is
   such a J (the Gaussian integral) and the iterated integral is the area / volume integral (Fubini). *)
Theorem C18_cross_section_integral_partial :
  forall pi s2pi3 expo sqrtf, 0 < pi ->
  (forall a b, expo (a + b) == expo a * expo b) -> (forall a b, a == b -> expo a == expo b) ->
  forall J : (Q -> Q) -> Q,
  (forall f g, (forall t, f t == g t) -> J f == J g) ->
  (forall k f, J (fun t => k * f t) == k * J f) ->
  forall c k a s z, (k = KBiv \/ k = KBeam) -> construct c k a = Some s ->
  cross_hyps pi expo sqrtf J k (a_vals a) z ->
  J (fun x => J (fun y => ed_of pi s2pi3 expo (efun s) x y z)) == v_pe (a_vals a) / (c * v_pl (a_vals a)).
Proof. exact cross_section_of_constructed. Qed.
Print Assumptions C18_cross_section_integral_partial.

Theorem C18_trivariate_volume_integral_partial :
  forall pi s2pi3 expo sqrtf,
  (forall a b, expo (a + b) == expo a * expo b) -> (forall a b, a == b -> expo a == expo b) ->
  s2pi3 * s2pi3 == (2 * pi) * (2 * pi) * (2 * pi) -> 0 < s2pi3 ->
  forall J : (Q -> Q) -> Q,
  (forall f g, (forall t, f t == g t) -> J f == J g) ->
  (forall k f, J (fun t => k * f t) == k * J f) ->
  forall c a s, 0 < c -> construct c KTri a = Some s -> volume_hyps pi expo sqrtf J c (a_vals a) ->
  J (fun x => J (fun y => J (fun z => ed_of pi s2pi3 expo (efun s) x y z))) == v_pe (a_vals a).
Proof. exact volume_of_constructed. Qed.
Print Assumptions C18_trivariate_volume_integral_partial.

(* ---- the clauses of the property for the object AFTER ANY SETTER HISTORY, in its CURRENT reported parameters ---- *)
(* the segments held by the Laser node tile the current laser_length exactly once *)
Theorem C18_node_segments_tile_after_any_history :
  forall c k a s0 ops z, construct c k a = Some s0 -> forallb (clean k) ops = true ->
  let s := fst (run c s0 ops) in
  let L := v_len (vals s) in
  exists l, geom s = Some l /\ tiles l L /\ Qsum (map snd l) == L /\
    (0 <= z -> z < L -> cover_count z l = 1%nat) /\ (z < 0 \/ L <= z -> cover_count z l = 0%nat).
Proof. exact node_segments_tile_after_any_history. Qed.
Print Assumptions C18_node_segments_tile_after_any_history.

Theorem C18_energy_density_after_any_history :
  forall pi s2pi3 expo sqrtf, 0 < pi ->
  (forall a b, expo (a + b) == expo a * expo b) -> (forall a b, a == b -> expo a == expo b) ->
  s2pi3 * s2pi3 == (2 * pi) * (2 * pi) * (2 * pi) -> 0 < s2pi3 ->
  forall c k a s0 ops x y z, 0 < c -> construct c k a = Some s0 -> forallb (clean k) ops = true ->
  let s := fst (run c s0 ops) in
  let v := vals s in
  let phi := phi pi expo sqrtf in
  let var := beam_var pi (v_wl v) (v_wz v) (v_sw v) z in
  let ed := ed_of pi s2pi3 expo (efun s) x y z in
  (k = KUniform -> ed == v_ed v) /\
  (k = KBiv -> sqrt_at sqrtf (2 * pi * sq (v_sx v)) -> sqrt_at sqrtf (2 * pi * sq (v_sy v)) ->
     ed == v_pe v / (c * v_pl v) * (phi (sq (v_sx v)) x * phi (sq (v_sy v)) y)) /\
  (k = KBeam -> sqrt_at sqrtf (2 * pi * var) -> ed == v_pe v / (c * v_pl v) * (phi var x * phi var y)) /\
  (k = KTri -> sqrt_at sqrtf (2 * pi * sq (v_sx v)) -> sqrt_at sqrtf (2 * pi * sq (v_sy v)) ->
     sqrt_at sqrtf (2 * pi * sq (v_pl v * c)) ->
     ed == v_pe v * (phi (sq (v_sx v)) x * phi (sq (v_sy v)) y * phi (sq (v_pl v * c)) (z - v_mz v))).
Proof. exact energy_density_after_any_history. Qed.
Print Assumptions C18_energy_density_after_any_history.

(* PARTIAL in the same sense as the two *_partial theorems above *)
Theorem C18_integrals_after_any_history_partial :
  forall pi s2pi3 expo sqrtf, 0 < pi ->
  (forall a b, expo (a + b) == expo a * expo b) -> (forall a b, a == b -> expo a == expo b) ->
  s2pi3 * s2pi3 == (2 * pi) * (2 * pi) * (2 * pi) -> 0 < s2pi3 ->
  forall (J : (Q -> Q) -> Q) c k a s0 ops z,
  (forall f g, (forall t, f t == g t) -> J f == J g) -> (forall q f, J (fun t => q * f t) == q * J f) ->
  0 < c -> construct c k a = Some s0 -> forallb (clean k) ops = true ->
  let s := fst (run c s0 ops) in
  let v := vals s in
  ((k = KBiv \/ k = KBeam) -> cross_hyps pi expo sqrtf J k v z ->
     J (fun x => J (fun y => ed_of pi s2pi3 expo (efun s) x y z)) == v_pe v / (c * v_pl v)) /\
  (k = KTri -> volume_hyps pi expo sqrtf J c v ->
     J (fun x => J (fun y => J (fun z' => ed_of pi s2pi3 expo (efun s) x y z'))) == v_pe v).
Proof. exact integrals_after_any_history_partial. Qed.
Print Assumptions C18_integrals_after_any_history_partial.

(* several Laser nodes sharing one profile: after any history of profile calls (MOp), further nodes attaching
   (MAttachNode) and nodes being given another profile (MReplaceNode), the first node and every node that still
   listens hold exactly the segments of the CURRENT laser_radius / laser_length, and the profile is the fresh object *)
Theorem C18_shared_profile_nodes_agree :
  forall c k a s0 ops, construct c k a = Some s0 -> forallb (mclean k) ops = true ->
  let m := fst (mrun c (mkM s0 []) ops) in
  geom (base m) = cur_segments (base m) /\ List.Forall (fun g => g = cur_segments (base m)) (extras m) /\
  construct c k (args_of (base m)) = Some (base m).
Proof. exact shared_profile_nodes_agree. Qed.
Print Assumptions C18_shared_profile_nodes_agree.

(* get_polarization returns a unit vector (len = the square root taken by Vector3D.normalise) *)
Theorem C18_polarisation_is_normalised :
  forall len p, len * len == norm2 p -> ~ len == 0 -> norm2 (pol_eval len p) == 1.
Proof. exact polarisation_is_normalised. Qed.
Print Assumptions C18_polarisation_is_normalised.

(* ---- spectra ------------------------------------------------------------------------------- *)
(* after ANY sequence of setter calls (no side condition) the cached wavelengths, power spectral
   density, bin powers, delta and all parameters equal those of a freshly constructed spectrum *)
Theorem C18_spectrum_history_independent :
  forall erf sqrt2 sqrt2pi k a s0 ops, sconstruct erf sqrt2 sqrt2pi k a = Some s0 ->
  let s := fst (srun erf sqrt2 sqrt2pi s0 ops) in
  sconstruct erf sqrt2 sqrt2pi k (sargs_of s) = Some s.
Proof. exact spectrum_history_independent. Qed.
Print Assumptions C18_spectrum_history_independent.

Theorem C18_spectrum_accessors_report_parameters :
  forall erf sqrt2 sqrt2pi k a s, sconstruct erf sqrt2 sqrt2pi k a = Some s ->
  get_min_wavelenth s = g_min a /\ get_max_wavelenth s = g_max a /\ get_spectral_bins s = g_bins a /\
  s_min s = g_min a /\ s_max s = g_max a /\ s_bins s = g_bins a /\
  get_delta_wavelength s = s_delta s /\
  (k = SGauss -> s_mean s = g_mean a /\ s_std s = g_std a).
Proof. exact constructor_reports. Qed.
Print Assumptions C18_spectrum_accessors_report_parameters.

Theorem C18_wavelength_centres :
  forall erf sqrt2 sqrt2pi k a s j, sconstruct erf sqrt2 sqrt2pi k a = Some s ->
  (j < Z.to_nat (g_bins a))%nat ->
  length (s_wl s) = Z.to_nat (g_bins a) /\
  s_delta s == (g_max a - g_min a) / inject_Z (g_bins a) /\
  nth j (s_wl s) 0 == g_min a + (qn j + (1 # 2)) * s_delta s.
Proof. exact wavelength_centres. Qed.
Print Assumptions C18_wavelength_centres.

(* GaussianSpectrum: the power of bin j is CDF(upper edge) - CDF(lower edge) with
   CDF(x) = (1 + erf((x - mean) / (stddev sqrt 2))) / 2, for every extensional erf and every bin count.
   (That this CDF is the integral of the Gaussian density is classical analysis, not proved.) *)
Theorem C18_gaussian_bin_power_is_cdf_difference :
  forall erf sqrt2 sqrt2pi, (forall a b, a == b -> erf a == erf b) ->
  forall a s j, sconstruct erf sqrt2 sqrt2pi SGauss a = Some s -> (j < Z.to_nat (g_bins a))%nat ->
  nth j (s_pow s) 0 ==
    ncdf erf (g_mean a) (s_ncdf s) (g_min a + qn (S j) * s_delta s)
    - ncdf erf (g_mean a) (s_ncdf s) (g_min a + qn j * s_delta s).
Proof. exact gaussian_bin_power_c. Qed.
Print Assumptions C18_gaussian_bin_power_is_cdf_difference.

(* the bin powers telescope to CDF(max) - CDF(min); they sum to one when the range spans the line *)
Theorem C18_gaussian_power_telescopes :
  forall erf sqrt2 sqrt2pi, (forall a b, a == b -> erf a == erf b) ->
  forall a s, sconstruct erf sqrt2 sqrt2pi SGauss a = Some s ->
  Qsum (s_pow s) == ncdf erf (g_mean a) (s_ncdf s) (g_max a) - ncdf erf (g_mean a) (s_ncdf s) (g_min a) /\
  (erf ((g_max a - g_mean a) * s_ncdf s) == 1 -> erf ((g_min a - g_mean a) * s_ncdf s) == -1 -> Qsum (s_pow s) == 1).
Proof. exact gaussian_power_telescopes_c. Qed.
Print Assumptions C18_gaussian_power_telescopes.

(* ConstantSpectrum (bin value = overlap of the bin with [min, max] / ((max-min) * bin width), as in the
   code since 879f8f0): every bin carries width/(max-min) = 1/bins; the sum is one. *)
Theorem C18_constant_bin_power :
  forall erf sqrt2 sqrt2pi, (forall a b, a == b -> erf a == erf b) ->
  forall a s j, sconstruct erf sqrt2 sqrt2pi SConst a = Some s -> (j < Z.to_nat (g_bins a))%nat ->
  nth j (s_pow s) 0 == s_delta s * (1 / (g_max a - g_min a)) /\
  nth j (s_pow s) 0 == 1 / inject_Z (g_bins a).
Proof. exact constant_bin_power_c. Qed.
Print Assumptions C18_constant_bin_power.

Theorem C18_constant_power_sums_to_one :
  forall erf sqrt2 sqrt2pi, (forall a b, a == b -> erf a == erf b) ->
  forall a s, sconstruct erf sqrt2 sqrt2pi SConst a = Some s -> Qsum (s_pow s) == 1.
Proof. exact constant_power_sums_to_one_c. Qed.
Print Assumptions C18_constant_power_sums_to_one.

(* ConstantSpectrum: bin power = bin width * density = the integral of the (piecewise constant) unit-power
   spectral density over the bin; the density vanishes outside [min, max] *)
Theorem C18_constant_bin_power_is_integral_of_density :
  forall erf expo sqrt2 sqrt2pi, (forall a b, a == b -> erf a == erf b) ->
  forall a s j x, sconstruct erf sqrt2 sqrt2pi SConst a = Some s -> (j < Z.to_nat (g_bins a))%nat ->
  (g_min a <= x -> x <= g_max a ->
     nth j (s_pow s) 0 == ((g_min a + qn (S j) * s_delta s) - (g_min a + qn j * s_delta s)) * s_eval expo s x) /\
  (x < g_min a \/ g_max a < x -> s_eval expo s x == 0).
Proof. exact constant_bin_power_is_integral. Qed.
Print Assumptions C18_constant_bin_power_is_integral_of_density.

(* every clause about spectra for the object after ANY setter history (no side condition), in its current
   parameters: state invariants (range, bin count, array lengths), accessors, delta, centres, per-bin power and sum *)
Theorem C18_spectrum_after_any_history :
  forall erf sqrt2 sqrt2pi k a s0 ops, (forall a b, a == b -> erf a == erf b) ->
  sconstruct erf sqrt2 sqrt2pi k a = Some s0 ->
  let s := fst (srun erf sqrt2 sqrt2pi s0 ops) in
  let n := Z.to_nat (s_bins s) in
  (0 < s_min s /\ s_min s < s_max s /\ (0 < s_bins s)%Z /\ 0 < s_delta s /\
   length (s_wl s) = n /\ length (s_psd s) = n /\ length (s_pow s) = n) /\
  get_max_wavelenth s = s_max s /\ get_min_wavelenth s = s_min s /\ get_spectral_bins s = s_bins s /\
  s_delta s == (s_max s - s_min s) / inject_Z (s_bins s) /\
  (forall j, (j < n)%nat -> nth j (s_wl s) 0 == s_min s + (qn j + (1 # 2)) * s_delta s) /\
  (k = SGauss ->
     (forall j, (j < n)%nat -> nth j (s_pow s) 0 ==
        ncdf erf (s_mean s) (s_ncdf s) (s_min s + qn (S j) * s_delta s) - ncdf erf (s_mean s) (s_ncdf s) (s_min s + qn j * s_delta s)) /\
     Qsum (s_pow s) == ncdf erf (s_mean s) (s_ncdf s) (s_max s) - ncdf erf (s_mean s) (s_ncdf s) (s_min s)) /\
  (k = SConst ->
     (forall j, (j < n)%nat -> nth j (s_pow s) 0 == 1 / inject_Z (s_bins s)) /\ Qsum (s_pow s) == 1).
Proof. exact spectrum_after_any_history. Qed.
Print Assumptions C18_spectrum_after_any_history.

(* the evaluator the correspondence compares EXACTLY (no tolerance) with the implementation for rnd = round53 --
   segments, delta_wavelength, wavelengths, ConstantSpectrum density -- is, for rnd = identity, the model the
   theorems above are about *)
Theorem C18_double_evaluator_at_identity_is_the_model :
  (forall L n i, (0 <= i)%Z -> fl_segment idq L n i = seg_at (L / inject_Z n) (Z.to_nat i)) /\
  (forall mn d i, fl_centre idq mn d i = centre mn d i) /\
  (forall erf sqrt2 sqrt2pi, (forall a b, a == b -> erf a == erf b) ->
   forall a, svalid SConst a = true ->
   Forall2 Qeq (fl_const_psd idq (g_min a) (g_max a) (g_bins a)) (s_psd (scanon erf sqrt2 sqrt2pi SConst a)) /\
   fl_delta idq (g_min a) (g_max a) (g_bins a) == s_delta (scanon erf sqrt2 sqrt2pi SConst a)).
Proof. exact (conj fl_segment_exact_is_model (conj fl_centre_exact_is_model fl_const_psd_exact_is_model)). Qed.
Print Assumptions C18_double_evaluator_at_identity_is_the_model.

(* record of an observation on the unchanged implementation (not counted as a violation: the call is
   rejected with ValueError): GaussianBeamAxisymmetric.stddev_waist = x with x <= 0 raises, yet the
   property reports x afterwards while the old energy density stays installed *)
Theorem C18_beam_rejected_setter_leaves_stale_parameter :
  forall c, exists a s0 x, construct c KBeam a = Some s0 /\
    let (s, r) := step c s0 (PSet Fsw x) in
    r = RValue /\ get Fsw (vals s) = x /\ efun s = efun s0 /\ construct c KBeam (args_of s) = None.
Proof. exact beam_rejected_setter_leaves_stale_parameter. Qed.
Print Assumptions C18_beam_rejected_setter_leaves_stale_parameter.

(* The integral clauses over the real numbers (Coquelicot + Interval) are in the sibling property file
   coq/Properties/C18_Real.v: C18_normal_density_integrates_real, C18_normal_density_tail_real,
   C18_bivariate_cross_section_real, C18_beam_cross_section_real, C18_trivariate_volume_real and their conjunction
   C18_integrals_over_the_reals (kept apart so that coqchk of this file does not have to re-check the closure of
   Interval, which takes more than 40 minutes). *)

(* non-vacuity: the hypotheses of the theorems above are satisfiable (pi := 2, sigma := 1: sqrt(2 pi sigma^2) = 2
   is rational; exp := constant 1 is multiplicative) *)
Example C18_nonvacuous :
  (exists l, segments (1 # 10) 1 = Some l /\ length l = 5%nat) /\
  (exists l, segments 1 (1 # 2) = Some l /\ length l = 1%nat) /\
  (exists s, construct 299792458 KBiv (mkA (mkV 0 2 (1 # 100000000) (1 # 100) (1 # 50) 0 0 0 0 0 (1 # 20) 1) (0, 1, 0)) = Some s) /\
  (exists s, sconstruct (fun _ => 0) (7 # 5) (5 # 2) SGauss (mkSA 1000 1100 10 1050 5) = Some s
             /\ length (s_pow s) = 10%nat) /\
  (let sqrtf := fun v : Q => if Qeq_bool v 4 then 2 else 1 in
   0 < 2 /\ (forall a b : Q, (fun _ : Q => 1) (a + b) == 1 * 1) /\ sqrt_at sqrtf (2 * 2 * sq 1)).
Proof.
  split; [eexists; split; vm_compute; reflexivity|].
  split; [eexists; split; vm_compute; reflexivity|].
  split; [eexists; vm_compute; reflexivity|].
  split; [eexists; split; vm_compute; reflexivity|].
  split; [reflexivity|]. split; [intros; reflexivity|]. vm_compute. split; reflexivity.
Qed.
